"""C10 — families of cases (ECU model x configuration) for the real scanners.

Every option that gallia parses from a range expression is generated as a DENOTATION first
(set of sessions, map session -> skipped ids) and then rendered into the documented grammar in
varying spellings; the scanner gets the string, the contract gets the denotation.
All generators are deterministic functions of (tier, seed).
"""

from __future__ import annotations

import itertools
import random
from typing import Any

from harness.c10_stack import OTHER_NRCS

# ------------------------------------------------------------------ rendering into the range grammar


def _num(v: int, style: int) -> str:
    return [str(v), hex(v), f"0x{v:02X}", f"0x{v:04x}"][style % 4]


def render_list(vals: list[int], style: int) -> str:
    """Ranges grammar: comma separated values / a-b ranges (overlaps allowed)."""
    vals = sorted(set(vals))
    if not vals:
        return ""
    if style % 3 == 0:  # plain enumeration
        return ",".join(_num(v, style) for v in vals)
    runs: list[tuple[int, int]] = []
    for v in vals:
        if runs and runs[-1][1] == v - 1:
            runs[-1] = (runs[-1][0], v)
        else:
            runs.append((v, v))
    parts = [(_num(a, style) if a == b else f"{_num(a, style)}-{_num(b, style)}") for a, b in runs]
    if style % 3 == 2:  # reversed order and one duplicated (overlapping) element
        parts = parts[::-1] + [_num(vals[0], style + 1)]
    return ",".join(parts)


def render_skip(skip_all: list[int], skip: dict[int, list[int]], style: int) -> str:
    """Ranges2D grammar: space separated  <sessions>:<ids>  entries; an entry without ':' names whole sessions."""
    parts = []
    by_id: dict[int, set[int]] = {}
    for s, ids in skip.items():
        for i in ids:
            by_id.setdefault(i, set()).add(s)
    shared = any(len(v) > 1 for v in by_id.values())
    if shared and style % 2 == 0:
        # the same denotation written with entries that span several sessions ("1-3:0x11") followed by
        # entries that add identifiers for some of them ("2:0x28"): outer keys repeat across entries
        groups: dict[tuple[int, ...], list[int]] = {}
        for i, ss in by_id.items():
            groups.setdefault(tuple(sorted(ss)), []).append(i)
        for ss in sorted(groups, key=lambda g: (-len(g), g)):
            parts.append(f"{render_list(list(ss), style)}:{render_list(groups[ss], style + len(ss))}")
    else:
        for s in sorted(skip):
            if skip[s]:
                parts.append(f"{_num(s, style)}:{render_list(skip[s], style + s)}")
    if skip_all:
        parts.append(render_list(skip_all, style))
    if style % 2:
        parts = parts[::-1]
    return " ".join(parts)


def den_skip(skip_all: list[int], skip: dict[int, list[int]]) -> dict[str, Any]:
    pairs = sorted({(s, i) for s, ids in skip.items() if s not in skip_all for i in ids})
    return {"skip_all": sorted(skip_all), "skip": [[s, i] for s, i in pairs]}


# ------------------------------------------------------------------ service scan
ABSENT, ABSENT_HERE, LENERR, SILENT = ["Absent"], ["AbsentHere"], ["LenErr"], ["Silent"]


def ans(k: int, pos: bool, sid: int, drop: bool = False, quiet: bool = False) -> list[Any]:
    return ["Ans", k, "Pos" if pos else "Neg", OTHER_NRCS[(sid + k) % len(OTHER_NRCS)], drop, quiet]


def classes12(sid: int) -> list[list[Any]]:
    return [ABSENT, ABSENT_HERE, LENERR, SILENT] + [ans(k, p, sid) for k in (1, 2, 3, 5) for p in (True, False)]


def classes6(sid: int) -> list[list[Any]]:
    """the six classes of MC_ServiceScan!Classes6 (answering at the first / the last probe length)"""
    return [ABSENT, ABSENT_HERE, LENERR, SILENT, ans(1, True, sid), ans(5, False, sid)]


def classes7(sid: int) -> list[list[Any]]:
    return classes6(sid) + [ans(3, True, sid, quiet=True)]


def svc_case(ecu: dict[str, Any], sessions: list[int] | None, skip_all: list[int], skip: dict[int, list[int]],
             check: bool, resp_ids: bool, style: int, origin: str, defaults: bool = False) -> dict[str, Any]:
    d = den_skip(skip_all, skip)
    return {
        "kind": "svc", "ecu": ecu, "origin": origin,
        "cfg": {"sessions": None if sessions is None else render_list(sessions, style),
                "skip": render_skip(skip_all, skip, style), "check": check, "resp_ids": resp_ids,
                "defaults": defaults},
        "den": {"sessions": None if sessions is None else sorted(set(sessions)), **d},
    }


def packed_ecu(offset: int, drop: bool = False) -> dict[str, Any]:
    """All 144 class pairs for (session 1, session 2), side by side on the 256 service ids."""
    svc: dict[str, dict[str, Any]] = {"1": {}, "2": {}, "3": {}}
    drop_after: dict[str, dict[str, int]] = {"2": {}, "3": {}}
    for sid in range(256):
        cs = classes12(sid)
        i = (sid + offset) % 144
        svc["1"][str(sid)] = cs[i // 12]
        svc["2"][str(sid)] = cs[i % 12]
        svc["3"][str(sid)] = cs[(i * 5 + 3) % 12]
        for s in ("1", "2", "3"):
            c = svc[s][str(sid)]
            if c[0] == "Ans" and c[1] > 1 and (sid + int(s)) % 4 == 1:
                svc[s][str(sid)] = c[:5] + [True]  # silent (instead of a length error) below its length
        if drop and sid % 9 == 4:
            for s in ("2", "3"):
                if svc[s][str(sid)][0] == "Ans":
                    svc[s][str(sid)] = svc[s][str(sid)][:4] + [True, svc[s][str(sid)][5]]
        if drop and sid % 9 in (1, 7):
            # the session is lost on the LAST probe of a service that yields no finding: silent / length error on
            # every length (last probe: 5 payload bytes), not supported (the scanner stops after the first probe)
            for s in ("2", "3"):
                k = svc[s][str(sid)][0]
                if k in ("Silent", "LenErr"):
                    drop_after[s][str(sid)] = 5
                elif k in ("Absent", "AbsentHere"):
                    drop_after[s][str(sid)] = 1
    out = {"type": "model", "sessions": [1, 2, 3], "sess_read": True, "svc": svc}
    if drop:
        out["drop_after"] = drop_after
    return out


SKIPS_SVC: list[tuple[list[int], dict[int, list[int]]]] = [
    ([], {}),
    ([], {1: [0x00, 0x10, 0x22, 0x23, 0x24, 0x3F, 0x40, 0xFF], 2: list(range(0x80, 0xC1))}),
    ([2], {1: list(range(0x10, 0x30)), 3: [0x7F, 0x80, 0xBF, 0xC0]}),
    ([3], {2: [0x27], 3: [0x10]}),
    ([], {1: [0x11, 0x27, 0x3E], 2: [0x11, 0x28], 3: [0x11, 0x27, 0x85]}),
]
SESSION_LISTS: list[list[int] | None] = [[1, 2], None, [2], [1, 2, 3], [1, 2, 5], [2, 3], [3, 1], [6, 2]]


def svc_packed(tier: str) -> list[dict[str, Any]]:
    out = []
    combos = list(itertools.product(range(len(SESSION_LISTS)), range(len(SKIPS_SVC)), (False, True), (False, True)))
    for n, (si, ki, check, resp) in enumerate(combos):
        if tier == "quick" and (si * 7 + ki * 3 + check * 2 + resp) % 5 != 0:
            continue
        sessions = SESSION_LISTS[si]
        sa, sk = SKIPS_SVC[ki]
        if sessions is None and (sa or sk):
            continue  # skip "only takes effect if --sessions is given": statement silent, not generated
        ecu = packed_ecu(offset=(n * 37) % 144)
        if not check:
            ecu["sess_read"] = True
        elif n % 3 == 0:
            ecu["sess_read"] = False
        out.append(svc_case(ecu, sessions, sa, sk, check, resp, n, "svc-packed"))
    return out


def svc_drop(tier: str) -> list[dict[str, Any]]:
    out = []
    for n, sessions in enumerate([[1, 2], [2, 3], [1, 2, 3], [3]]):
        for resp in (False, True):
            if tier == "quick" and (n + resp) % 2:
                continue
            out.append(svc_case(packed_ecu(n * 11, drop=True), sessions, [], SKIPS_SVC[n % 2][1], True, resp, n,
                                "svc-drop"))
    return out


ABSTRACT_SIDS = (0x10, 0x50)
ABSTRACT_CFGS: list[tuple[list[int] | None, list[int], dict[int, list[int]], bool, bool]] = [
    ([1, 2], [], {}, False, False),
    ([1, 2], [], {}, False, True),
    ([1, 2], [2], {1: [0x10]}, False, True),
    ([1, 2], [], {2: [0x10, 0x50], 3: [0x10]}, True, True),
    ([2, 3], [], {}, True, False),
    (None, [], {}, False, True),
    ([1, 2], [], {1: [0x50]}, True, True),
]


def svc_abstract(tier: str) -> list[dict[str, Any]]:
    """Every abstract model of the TLC configuration (2 sessions x sids {0x10, 0x50} x classes),
    concretised: all other service ids are Absent."""
    out = []
    cl = classes7 if tier == "quick" else classes12
    slots = [(s, sid) for s in (1, 2) for sid in ABSTRACT_SIDS]
    for n, combo in enumerate(itertools.product(*[range(len(cl(sid))) for _, sid in slots])):
        svc: dict[str, dict[str, Any]] = {"1": {}, "2": {}}
        for (s, sid), ci in zip(slots, combo):
            svc[str(s)][str(sid)] = cl(sid)[ci]
        sessions, sa, sk, check, resp = ABSTRACT_CFGS[n % len(ABSTRACT_CFGS)]
        ecu = {"type": "model", "sessions": [1, 2], "sess_read": (n // 7) % 2 == 0 or not check, "svc": svc}
        out.append(svc_case(ecu, sessions, sa, sk, check, resp, n, "svc-abstract"))
    return out


def svc_boundary() -> list[dict[str, Any]]:
    """Exactly the boundary service ids answer; skips cut next to them."""
    edge = [0x00, 0x01, 0x3E, 0x3F, 0x40, 0x41, 0x7E, 0x7F, 0x80, 0x81, 0xBE, 0xBF, 0xC0, 0xFE, 0xFF]
    out = []
    for n, k in enumerate((1, 2, 3, 5)):
        svc = {str(s): {str(sid): ans(k, (sid + s) % 2 == 0, sid) for sid in edge} for s in (1, 2)}
        ecu = {"type": "model", "sessions": [1, 2], "sess_read": True, "svc": svc}
        for resp in (False, True):
            out.append(svc_case(ecu, [1, 2], [], {1: [0x00, 0x3F, 0x80, 0xFF], 2: [0x01, 0xBE, 0xC0]}, False, resp,
                                n + resp, "svc-boundary"))
            out.append(svc_case(ecu, None, [], {}, False, resp, n, "svc-boundary"))
    return out


def svc_defaults() -> list[dict[str, Any]]:
    """gallia's default flags: initial ping, cyclic TesterPresent, properties."""
    out = []
    for n in range(3):
        ecu = packed_ecu(n * 50)
        ecu["svc"]["1"]["62"] = ans(1, True, 0x3E)
        ecu["svc"]["2"]["62"] = [ans(1, True, 0x3E), ABSENT, SILENT][n]
        out.append(svc_case(ecu, [1, 2], [], {}, n == 1, n == 2, n, "svc-defaults", defaults=True))
    return out


def svc_reset(tier: str) -> list[dict[str, Any]]:
    """--reset 1: the ECU is reset after every session.  It acknowledges the reset and performs it 0 .. 450 ms later
    (every answer takes 100 ms); the scan of the next session must not begin before the ECU has recovered."""
    out = []
    n = 0
    for sessions in ([2, 3], [1, 2, 3]) if tier == "quick" else ([2, 3], [1, 2, 3], [3, 2], [2]):
        for delay in (0.0, 0.25, 0.35, 0.45):
            for check in (False, True) if tier != "quick" else (False,):
                ecu = packed_ecu(offset=(n * 41) % 144)
                ecu["reset"] = {"level": 1, "delay": delay, "latency": 0.1}
                c = svc_case(ecu, sessions, [], {}, check, False, n, "svc-reset")
                c["cfg"]["reset"] = 1
                out.append(c)
                n += 1
    return out


# (tester-present interval, base latency, jitter, UDS timeout | None = gallia's default 2 s, initial ping)
# An honest ECU that needs longer for an answer than the tester-present interval and less than the UDS timeout:
# every request IS answered in time, so the scan result must be what the ECU supports.  (The initial ping of
# `wait_for_ecu` has its own fixed budget per ping, 0.5 s today: it is only switched on where every answer takes at
# most 0.3 s, so that another constant there is not mistaken for a wrong scan.)
SLOW_TIMINGS: list[tuple[float, float, list[float], float | None, bool]] = [
    (0.1, 0.25, [0.0], 0.6, True),
    (0.08, 0.2, [0.0], None, True),
    (0.5, 0.8, [0.0], None, False),                        # both at gallia's defaults (0.5 s / 2 s)
    (0.3, 0.4, [-0.05, 0.0, 0.05, 0.02, -0.03], 1.0, False),  # jitter, always slower than the interval
    (0.15, 0.2, [-0.1, 0.1, 0.08, -0.04, 0.0, 0.06, -0.1], 0.8, True),  # jitter around the interval
    (0.25, 1.2, [0.0, 0.3, -0.4], None, False),            # several intervals per answer
    (0.5, 0.05, [0.0, 0.01], None, True),                  # control: the everyday fast ECU
]


def _slow(case: dict[str, Any], timing: tuple[float, float, list[float], float | None, bool], props: bool) -> dict[str, Any]:
    interval, base, jitter, timeout, ping = timing
    case["ecu"]["latency"] = {"base": base, "jitter": jitter}
    case["cfg"].update({"tp_interval": interval, "timeout": timeout, "ping": ping, "properties": props})
    return case


def svc_slow_tp(tier: str) -> list[dict[str, Any]]:
    """The scan as a user runs it -- cyclic TesterPresent on (UDSScanner's default), interval and timeout as
    given -- against honest but slow ECUs: the keep-alive shares the connection with the probes, so it matters
    what the background task does with an answer that takes longer than its own period."""
    out = []
    cfgs: list[tuple[list[int] | None, bool, bool]] = [([1, 2], False, False), ([2, 3], True, False),
                                                       (None, False, True), ([1, 2, 3], False, True)]
    n = 0
    for ti, timing in enumerate(SLOW_TIMINGS):
        for ci, (sessions, check, resp) in enumerate(cfgs):
            n += 1
            if tier == "quick" and (ti + ci) % 2:
                continue
            ecu = packed_ecu(offset=(n * 29) % 144)
            for s in ("1", "2", "3"):
                ecu["svc"][s]["62"] = ans(1, True, 0x3E)   # an honest ECU answers TesterPresent
            out.append(_slow(svc_case(ecu, sessions, [], SKIPS_SVC[ci % 2][1] if sessions else {}, check, resp, n,
                                      "svc-slow-tp"), timing, props=n % 3 == 0))
    return out


def svc_random(tier: str, seed: int, services_of: Any) -> list[dict[str, Any]]:
    out = []
    nseeds = 6 if tier == "quick" else 60
    for k in range(nseeds):
        sd = seed * 1000 + k
        sess = sorted(services_of(sd))
        pick = sess[:3] + ([0x55] if k % 2 else [])
        for j, sessions in enumerate([pick, None] if k % 3 == 0 else [pick]):
            out.append(svc_case({"type": "random", "seed": sd}, sessions, [], ({pick[0]: [0x10, 0x27]} if k % 4 == 1 and sessions else {}),
                                k % 2 == 0, (k + j) % 2 == 1, k, "svc-random"))
    return out


# ------------------------------------------------------------------ identifier scan
IDENT_RANGES: dict[int, list[tuple[int, int]]] = {
    0x22: [(0, 3), (0xFE, 0x101), (0xFFFC, 0xFFFF), (5, 5), (7, 6), (0x1FF, 0x201)],
    0x2E: [(0, 2), (0xFF, 0x100), (0xFFFE, 0xFFFF), (0x1234, 0x1236)],
    0x31: [(0, 1), (0xFF, 0x100), (0xFFFF, 0xFFFF), (0x200, 0x202)],
    0x27: [(0, 3), (0x7C, 0x7F), (0x7E, 0x83), (0x7F, 0x7F), (0x61, 0x64), (0x7D, 0xFF)],
}


def ident_model(rnd: random.Random, svc: int, start: int, end: int, mode: str, drop: bool) -> dict[str, Any]:
    lo, hi = max(0, start - 2), min(0xFFFF if svc != 0x27 else 0x7F, end + 2)
    sfs = [1, 2, 3] if svc == 0x31 else [0]
    m: dict[str, Any] = {"type": "identmodel", "sessions": [1, 2, 3], "sess_read": True, "service": svc,
                         "reset_ok": True, "pos": {}, "abn": {}, "sil": {}, "drop": {}}
    for s in (1, 2, 3):
        for key in ("pos", "abn", "sil", "drop"):
            m[key][str(s)] = {}
        for sf in sfs:
            ids = list(range(lo, hi + 1))
            if mode == "all":
                pos = list(ids)
            elif mode == "none":
                pos = []
            else:
                pos = [i for i in ids if rnd.random() < 0.5]
            rest = [i for i in ids if i not in pos]
            abn = [i for i in rest if rnd.random() < 0.4]
            sil = [i for i in rest if i not in abn and rnd.random() < 0.15][:1]
            # identifiers answered with a positive response that echoes ANOTHER identifier (a confused ECU or
            # gateway): not a positive response for the identifier asked
            # (only where the probe itself is a complete typed request -- 22 xx xx, 31 0s xx xx --: for probes that
            # only parse as raw bytes the client compares the service id only, see C03)
            wrong = [i for i in rest if i not in abn and i not in sil and (i + s) % 3 == 0][:2] if svc in (0x22, 0x31) else []
            m.setdefault("wrongecho", {}).setdefault(str(s), {})[str(sf)] = wrong
            m["pos"][str(s)][str(sf)] = pos
            m["abn"][str(s)][str(sf)] = abn
            m["sil"][str(s)][str(sf)] = sil
            m["drop"][str(s)][str(sf)] = [i for i in pos if drop and s != 1 and rnd.random() < 0.4]
    return m


def ident_case(ecu: dict[str, Any], svc: int, start: int, end: int, sessions: list[int] | None, skip_all: list[int],
               skip: dict[int, list[int]], check: int | None, payload: str | None, style: int,
               origin: str) -> dict[str, Any]:
    d = den_skip(skip_all, skip)
    return {
        "kind": "ident", "ecu": ecu, "origin": origin,
        "cfg": {"sessions": None if sessions is None else render_list(sessions, style),
                "skip": render_skip(skip_all, skip, style),
                "service": [svc, hex(svc), str(svc)][style % 3] if style % 2 else svc,
                "start": _num(start, style) if style % 2 else start,
                "end": _num(end, style + 1) if style % 2 else end,
                "payload": payload, "check": check},
        "den": {"sessions": None if sessions is None else sorted(set(sessions)), "service": svc, "start": start,
                "end": end, **d},
    }


def ident_scripted(tier: str, seed: int) -> list[dict[str, Any]]:
    rnd = random.Random(seed * 7919 + 11)
    out = []
    n = 0
    reps = 1 if tier == "quick" else 6
    for svc, ranges in IDENT_RANGES.items():
        for (start, end) in ranges:
            mid = [i for i in range(start, end + 1)]
            skips: list[tuple[list[int], dict[int, list[int]]]] = [([], {})]
            if mid:
                skips.append(([], {1: [mid[0]], 2: [mid[-1]], 3: mid}))
                skips.append(([2], {1: [mid[len(mid) // 2], start + 1, end + 1]}))
                # a standing skip list whose entries also lie OUTSIDE the scanned range (a scan resumed with --start)
                below = [x for x in (start - 1, start - 3, 0) if 0 <= x < start]
                skips.append(([], {1: sorted(set(below + [mid[0], mid[-1]])), 2: sorted(set(below + mid[1:3] + [end + 2]))}))
            for sessions in ([1, 2], None, [2, 3], [1, 2, 5]):
                for sa, sk in skips:
                    if sessions is None and (sa or sk):
                        continue
                    for check in (None, 1, 2):
                        for _ in range(reps):
                            n += 1
                            if tier == "quick" and n % 3 != 0:
                                continue
                            mode = ["rand", "all", "rand", "none", "rand"][n % 5]
                            drop = check == 1 and sessions is not None and n % 2 == 0
                            ecu = ident_model(rnd, svc, start, end, mode, drop)
                            if n % 11 == 0:
                                ecu["reset_ok"] = False
                            if n % 13 == 0 and not drop:
                                ecu["sess_read"] = False
                            if n % 17 == 0:
                                ecu["absent"] = {"2": "SNS" if n % 2 else "SNSIAS"}
                            payload = None
                            if svc in (0x2E, 0x31) and n % 2:
                                payload = ["aabb", "00", "ff0102"][n % 3]
                            out.append(ident_case(ecu, svc, start, end, sessions, sa, sk, check, payload, n,
                                                  "ident-scripted"))
    return out


def ident_slow_tp(tier: str, seed: int) -> list[dict[str, Any]]:
    """Identifier scans with the cyclic TesterPresent task running against honest but slow ECUs (see svc_slow_tp)."""
    rnd = random.Random(seed * 6007 + 3)
    out = []
    n = 0
    for svc, ranges in IDENT_RANGES.items():
        for (start, end) in ranges[:2] if tier == "quick" else ranges:
            if end < start:
                continue
            for ti, timing in enumerate(SLOW_TIMINGS):
                n += 1
                if tier == "quick" and (n + ti) % 2:
                    continue
                sessions = [[1, 2], None, [2, 3]][n % 3]
                if timing[1] + max(timing[2]) > 0.3:
                    # between two sessions the scanner resets the ECU and waits for it with pings of a fixed budget
                    # (`wait_for_ecu`, 0.5 s today); an ECU slower than that is not "answering in time" there
                    sessions = None
                mid = list(range(start, end + 1))
                skip = {2: [mid[-1]]} if sessions and n % 2 else {}
                ecu = ident_model(rnd, svc, start, end, ["rand", "all", "rand"][n % 3], False)
                payload = "aabb" if svc in (0x2E, 0x31) and n % 2 else None
                out.append(_slow(ident_case(ecu, svc, start, end, sessions, [], skip, [None, 1][n % 2], payload, n,
                                            "ident-slow-tp"), timing, props=n % 4 == 0))
    return out


def ident_random(tier: str, seed: int, services_of: Any) -> list[dict[str, Any]]:
    """RandomUDSServer(seed); SecurityAccess is left out: its seeds come from an unseeded RNG
    (answers to 27 xx depend on process entropy, no reproducible ground truth)."""
    out = []
    nseeds = 8 if tier == "quick" else 80
    params = {"p_identifier": 0.35, "p_correct_payload_format": 0.9, "p_service": 0.6}
    rnd = random.Random(seed * 104729 + 5)
    for k in range(nseeds):
        sd = seed * 1000 + k
        services = services_of(sd, params)
        for svc in (0x22, 0x2E, 0x31):
            have = sorted(s for s, d in services.items() if svc in d)
            if not have:
                continue
            start = rnd.choice([0, 0xFC, 0x1000, 0xFFF0])
            if svc == 0x22 and start > 0xF000:
                start = 0xE000
            end = start + (5 if svc == 0x31 else 12)
            sessions: list[int] | None = have[:2] + ([0x66] if k % 2 else [])
            if k % 5 == 4:
                sessions = None
            skip = {have[0]: [start + 1, end]} if (k % 3 == 0 and sessions) else {}
            payload = "00" if svc == 0x2E else None
            out.append(ident_case({"type": "random", "seed": sd, "params": params}, svc, start, end, sessions, [],
                                  skip, 1 if k % 2 else None, payload, k, "ident-random"))
    return out
