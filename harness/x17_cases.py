"""X17: turns what TLC exported from the design (MC_CliTree_design: scenarios "S", argument-vector
classes "A", registry look-ups "K") into jobs for harness/x17_run.py, plus the enumerated environments
that have no counterpart in the design (config discovery, hr).  Nothing here judges the property."""

from __future__ import annotations

import itertools
import json
import random
from typing import Any

from harness.common import Machinery

NAMES1 = {"a": "xa", "b": "xb"}                      # new top-level names
NAMES2 = {"a": "script", "b": "xb"}                   # "a" is a group the builtin plugin has, too
DESCS = {"": None, "d1": "miscellaneous helper scripts", "d2": "some other description"}
SCHEME = {"t": "xt", "tl": "xt-l", "u": "xu", "x": "xq", "tlx": "xt-lx", "": ""}


def _unset(v: Any) -> list[Any]:
    return v["$set"] if isinstance(v, dict) and "$set" in v else list(v)


def scenarios_from_prints(prints: list[Any]) -> list[dict[str, Any]]:
    """["S", pls, refused, tree] -> [{pls: [{leaves, desc}..], design: {refused, tree}}] (deduplicated)"""
    seen: dict[str, dict[str, Any]] = {}
    for p in prints:
        if not (isinstance(p, list) and len(p) == 4 and p[0] == "S"):
            continue
        pls = []
        for pl in p[1]:
            leaves = sorted(([list(l["path"]), l["cls"]] for l in _unset(pl["leaves"])), key=json.dumps)
            pls.append({"leaves": leaves, "desc": pl["desc"]})
        if not pls:
            continue
        tree = sorted(([list(t[0]), t[1]] for t in _unset(p[3])), key=json.dumps)
        sc = {"pls": pls, "design": {"refused": bool(p[2]), "tree": tree}}
        seen.setdefault(json.dumps(pls, sort_keys=True), sc)
    return list(seen.values())


def argv_classes_from_prints(prints: list[Any]) -> dict[str, str]:
    out: dict[str, str] = {}
    for p in prints:
        if isinstance(p, list) and len(p) == 3 and p[0] == "A":
            if out.setdefault(p[1], p[2]) != p[2]:
                raise Machinery(f"design exports two outcomes for argument-vector class {p[1]}")
    return out


def lookups_from_prints(prints: list[Any]) -> list[dict[str, Any]]:
    """["K", tr, q, res] -> {reg: [[scheme, cls]..], q: scheme, design: cls|""}"""
    seen: dict[str, dict[str, Any]] = {}
    for p in prints:
        if isinstance(p, list) and len(p) == 4 and p[0] == "K":
            reg = [["".join(r["key"]), r["cls"]] for r in p[1]]
            q = "".join(p[2])
            seen.setdefault(json.dumps([reg, q]), {"reg": reg, "q": q, "design": p[3]})
    return list(seen.values())


def concrete(sc: dict[str, Any], names: dict[str, str]) -> dict[str, Any]:
    return {"names": names, "descs": DESCS, "pls": sc["pls"]}


# ------------------------------------------------------------------ jobs
def load_jobs(scs: list[dict[str, Any]], tier: str) -> list[dict[str, Any]]:
    jobs = []
    for i, sc in enumerate(scs):
        jobs.append({"job": "load", "scenario": concrete(sc, NAMES1), "synth": "last", "design": sc["design"], "map": 1})
        single = not sc["pls"][1]["leaves"] if len(sc["pls"]) > 1 else True
        if tier == "thorough" or i % 7 == 0:
            jobs.append({"job": "load", "scenario": concrete(sc, NAMES1), "synth": "first", "design": sc["design"], "map": 1})
        if single or tier == "thorough" or i % 11 == 0:
            for pos in ("first", "last"):
                jobs.append({"job": "load", "scenario": concrete(sc, NAMES2), "synth": pos, "map": 2})
    jobs.append({"job": "load", "scenario": {"pls": []}, "synth": "last", "broken": True})
    jobs.append({"job": "load", "scenario": {"pls": []}, "synth": None, "map": 0})
    return jobs


def _items_for(spec: dict[str, Any], classes: dict[str, str], *, rets: tuple[int, ...] = (0, 3),
               children: dict[str, list[str]], tops: tuple[str, ...] = ("--version",)) -> list[dict[str, Any]]:
    items: list[dict[str, Any]] = []
    path = spec["path"]
    for c in sorted(classes):
        if c == "valid":
            for r in rets:
                items.append({"cls_": c, "path": path, "spec": spec, "ret": r})
        elif c == "missing_required":
            for i in range(len(spec["required"])):
                items.append({"cls_": c, "path": path, "spec": dict(spec, drop=i), "ret": 3})
        elif c == "unknown_group":
            for i in range(len(path) - 1):
                items.append({"cls_": c, "path": path, "spec": dict(spec, pos=i), "ret": 3})
        elif c == "help_group":
            items.append({"cls_": c, "path": path, "spec": spec, "ret": 3,
                          "children": children.get("/".join(path[:-1]), [])})
        elif c == "top_then_path":
            for t in tops:
                items.append({"cls_": c, "path": path, "spec": dict(spec, top=t), "ret": 3})
        elif c == "no_args":
            continue
        else:
            items.append({"cls_": c, "path": path, "spec": spec, "ret": 3})
    return items


def children_of(paths: list[list[str]]) -> dict[str, list[str]]:
    out: dict[str, set[str]] = {}
    for p in paths:
        for i in range(len(p)):
            out.setdefault("/".join(p[:i]), set()).add(p[i])
    return {k: sorted(v) for k, v in out.items()}


def real_dispatch_jobs(specs: list[dict[str, Any]], classes: dict[str, str], tier: str) -> list[dict[str, Any]]:
    ch = children_of([s["path"] for s in specs])
    tops = ("--version", "--template", "--show-plugins") if tier == "thorough" else ("--version",)
    jobs = []
    for n, s in enumerate(specs):
        t = tops if tier == "thorough" else (tops + (("--template", "--show-plugins")[n % 2],) if n % 8 == 0 else tops)
        jobs.append({"job": "dispatch", "scenario": None, "synth": None,
                     "items": _items_for(s, classes, children=ch, tops=t)})
    if "no_args" in classes:
        jobs[0]["items"].append({"cls_": "no_args", "path": [], "spec": {"valid": []}, "ret": 3})
    return jobs


def synth_spec(path: list[str], cls: str) -> dict[str, Any]:
    valid = ["--req", "5"] + (["--two", "9"] if cls.startswith("c2") else [])
    return {"path": path, "cls": f"harness.x17_synth.{cls}", "valid": valid, "required": [["--req", "5"]],
            "foreign": ["--target", "tcp://127.0.0.1:1"] if not cls.startswith("c2") else ["--zz-no-such-option", "1"]}


def synth_dispatch_jobs(scs: list[dict[str, Any]], classes: dict[str, str], tier: str, rnd: random.Random) -> list[dict[str, Any]]:
    """scenarios the design does not refuse, richest first; the builtin plugins stay installed"""
    ok = [s for s in scs if not s["design"]["refused"] and len(s["design"]["tree"]) >= 2]
    ok.sort(key=lambda s: (-len(s["design"]["tree"]), json.dumps(s["pls"], sort_keys=True)))
    pick = ok[:6] + rnd.sample(ok[6:], min(len(ok) - 6, 6 if tier == "quick" else 60))
    jobs = []
    for n, sc in enumerate(pick):
        names = NAMES1 if n % 3 else NAMES2
        if names is NAMES2 and any(p == ["a"] for p, _ in sc["design"]["tree"]):
            names = NAMES1
        # with NAMES2 the description must be compatible with the builtin one
        if names is NAMES2 and any(pl["desc"] == "d2" for pl in sc["pls"]):
            names = NAMES1
        paths = [[names[t] for t in p] for p, _ in sc["design"]["tree"]]
        ch = children_of(paths)
        items: list[dict[str, Any]] = []
        for (p, cls), cp in zip(sc["design"]["tree"], paths):
            sub = classes if tier == "thorough" or n < 3 else {k: v for k, v in classes.items()
                                                              if k in ("valid", "unknown_leaf", "missing_required", "foreign_option")}
            its = _items_for(synth_spec(cp, cls), sub, children=ch, rets=(0, 3) if n < 3 else (3,))
            for it in its:
                if it["cls_"] == "help_group" and len(cp) == 1:
                    it["children"] = ch.get("", [])
            items += its
        jobs.append({"job": "dispatch", "scenario": concrete(sc, names), "synth": "last" if n % 2 else "first", "items": items})
    return jobs


BUILTIN_QUERIES = [
    "tcp://127.0.0.1:1", "tcp-lines://127.0.0.1:1", "doip://127.0.0.1:13400?src_addr=1&target_addr=2",
    "hsfz://127.0.0.1:6801?src_addr=1&dst_addr=2", "isotp://vcan0?src_addr=1&dst_addr=2", "can-raw://vcan0",
    "unix:///tmp/x17.sock", "unix-lines:///tmp/x17.sock",
    "TCP://127.0.0.1:1", "Tcp-Lines://127.0.0.1:1",              # RFC 3986 3.1: schemes are case-insensitive
    "tcp-://127.0.0.1:1", "tcp-line://127.0.0.1:1", "tcp-liness://127.0.0.1:1", "tc://127.0.0.1:1", "can://vcan0",
    "unix-://x", "uni://x", "lines://x", "http://127.0.0.1:1", "udp://127.0.0.1:1", "fr-raw://x", "x17nope://h:1",
    "127.0.0.1:1", "//127.0.0.1:1", "",
]
ECU_QUERIES = ["default", "Default", "defaul", "default2", "", "generic", "xt", "xu"]


def lookup_jobs(lks: list[dict[str, Any]], tier: str) -> list[dict[str, Any]]:
    jobs = []
    by_reg: dict[str, list[dict[str, Any]]] = {}
    for k in lks:
        by_reg.setdefault(json.dumps(k["reg"]), []).append(k)
    for n, (regs, ks) in enumerate(sorted(by_reg.items())):
        reg = json.loads(regs)
        # the registry is split over the two synthetic plugins
        cut = (n % (len(reg) + 1)) if reg else 0
        pls = [{"tr": [[SCHEME[s], c] for s, c in reg[:cut]], "ecus": [[SCHEME[s], "E" + c[1:]] for s, c in reg[:cut]]},
               {"tr": [[SCHEME[s], c] for s, c in reg[cut:]], "ecus": [[SCHEME[s], "E" + c[1:]] for s, c in reg[cut:]]}]
        qs: list[dict[str, Any]] = []
        for k in ks:
            sch = SCHEME[k["q"]]
            uri = f"{sch}://127.0.0.1:1" if sch else "127.0.0.1:1"
            qs.append({"what": "transport", "uri": uri, "design": k["design"]})
            qs.append({"what": "ecu", "vendor": sch, "design": ("E" + k["design"][1:]) if k["design"] else ""})
        qs.append({"what": "transports"})
        qs.append({"what": "ecus"})
        if n == 0 or tier == "thorough":
            qs += [{"what": "transport", "uri": u} for u in BUILTIN_QUERIES]
            qs += [{"what": "ecu", "vendor": v} for v in ECU_QUERIES]
        jobs.append({"job": "lookup", "scenario": {"pls": pls}, "synth": "first" if n % 2 else "last", "queries": qs})
    jobs.append({"job": "lookup", "scenario": {"pls": []}, "synth": None,
                 "queries": [{"what": "transport", "uri": u} for u in BUILTIN_QUERIES]
                 + [{"what": "ecu", "vendor": v} for v in ECU_QUERIES] + [{"what": "transports"}, {"what": "ecus"}]})
    return jobs


def showcfg_jobs(tier: str) -> list[dict[str, Any]]:
    jobs = []
    for env, cwd, git, xdgset, home in itertools.product(("unset", "file", "missing"), (False, True),
                                                         (False, True, "norepo"), (False, True), (False, True)):
        for xdg in ((False, True) if xdgset else (False,)):
            have = {"env": env, "cwd": cwd, "git": git, "xdgset": xdgset, "xdg": xdg, "home": home}
            n = len(jobs)
            if tier == "quick" and env != "unset" and not (cwd and git is True and home) and not (not cwd and git is False and not home and not xdg):
                continue
            jobs.append({"job": "showcfg", "have": have})
            if tier == "thorough" and n % 9 == 0 and env == "unset":
                jobs.append({"job": "showcfg", "have": have, "tail": ["scan", "uds", "services", "--target", "tcp://127.0.0.1:1"]})
    return jobs


def template_jobs(specs: list[dict[str, Any]]) -> list[dict[str, Any]]:
    jobs = []
    for i in range(0, len(specs), 3):
        jobs.append({"job": "template", "head": i == 0,
                     "items": [{"path": s["path"], "valid": s["valid"]} for s in specs[i:i + 3]]})
    return jobs


def plugins_jobs(scs: list[dict[str, Any]]) -> list[dict[str, Any]]:
    jobs: list[dict[str, Any]] = [{"job": "plugins", "scenario": None, "synth": None},
                                  {"job": "plugins", "scenario": None, "synth": None, "tail": ["scan", "uds", "services"]}]
    rich = [s for s in scs if not s["design"]["refused"] and len(s["design"]["tree"]) >= 3][:2]
    for n, sc in enumerate(rich):
        c = concrete(sc, NAMES1)
        c["pls"] = [dict(pl, tr=[["xt", f"T{i}a"], ["xt-l", f"T{i}b"]], ecus=[["xoem" + str(i), f"E{i}"]])
                    for i, pl in enumerate(c["pls"], start=1)]
        jobs.append({"job": "plugins", "scenario": c, "synth": "first" if n else "last"})
    return jobs


def rerun_jobs(specs: list[dict[str, Any]], scs: list[dict[str, Any]], tier: str) -> list[dict[str, Any]]:
    jobs = []
    for n, s in enumerate(specs):
        if s["path"] == ["script", "rerun"]:
            continue
        jobs.append({"job": "rerun", "scenario": None, "synth": None,
                     "items": [{"path": s["path"], "valid": s["valid"], "cls": s["cls"], "ret": (0, 3, 70)[n % 3]}]})
    rich = [s for s in scs if not s["design"]["refused"] and len(s["design"]["tree"]) >= 3][:1]
    for sc in rich:
        c = concrete(sc, NAMES1)
        items = []
        for p, cls in sc["design"]["tree"]:
            sp = synth_spec([NAMES1[t] for t in p], cls)
            items.append({"path": sp["path"], "valid": sp["valid"], "cls": sp["cls"], "ret": 3})
        jobs.append({"job": "rerun", "scenario": c, "synth": "last", "items": items})
    return jobs


HR_ITEMS = [
    {"cls_": "nofile", "argv": []},
    {"cls_": "nofile", "argv": ["-n", "3"]},
    {"cls_": "exclusive", "argv": ["--tail", "--head", "@LOG"]},
    {"cls_": "exclusive", "argv": ["--tail", "--reverse", "@LOG"]},
    {"cls_": "exclusive", "argv": ["-r", "--head", "@LOG"]},
    {"cls_": "exclusive", "argv": ["-t", "-r", "@LOG"]},
    {"cls_": "badprio", "argv": ["-p", "zz-no-such-priority", "@LOG"]},
    {"cls_": "badcolor", "argv": ["--color", "sometimes", "@LOG"]},
    {"cls_": "badlines", "argv": ["-n", "many", "@LOG"]},
    {"cls_": "unknown_opt", "argv": ["--zz-no-such-option", "@LOG"]},
    {"cls_": "notafile", "argv": ["@DIR/does-not-exist.json.zst"]},
    {"cls_": "notafile", "argv": ["@DIR"]},
]


def hr_jobs() -> list[dict[str, Any]]:
    return [{"job": "hr", "items": HR_ITEMS}]
