"""Stateless depth-first enumeration of environment choices.

The scripted environment calls `chooser.choose(n)` whenever it has `n`
alternatives.  `explore(run, depth)` re-executes `run(chooser)` once per maximal
choice vector: choices beyond `depth` take alternative 0 (the default), runs
that terminate before using up their vector are not extended.
"""

from __future__ import annotations

from collections.abc import Callable, Iterator
from typing import Any


class Chooser:
    def __init__(self, prefix: list[int], depth: int) -> None:
        self.prefix = prefix
        self.depth = depth
        self.taken: list[tuple[int, int]] = []  # (choice, arity) for the first `depth` points
        self.points = 0

    def choose(self, n: int) -> int:
        self.points += 1
        k = len(self.taken)
        if k >= self.depth:
            return 0
        c = self.prefix[k] if k < len(self.prefix) else 0
        assert c < n, (c, n)
        self.taken.append((c, n))
        return c


def explore(run: Callable[[Chooser], Any], depth: int, limit: int | None = None) -> Iterator[tuple[list[int], Any]]:
    prefix: list[int] = []
    count = 0
    while True:
        ch = Chooser(prefix, depth)
        res = run(ch)
        yield [c for c, _ in ch.taken], res
        count += 1
        if limit is not None and count >= limit:
            return
        # next vector: increment the last incrementable position
        t = ch.taken
        j = len(t) - 1
        while j >= 0 and t[j][0] + 1 >= t[j][1]:
            j -= 1
        if j < 0:
            return
        prefix = [c for c, _ in t[:j]] + [t[j][0] + 1]


class ListChooser:
    """Replays a fixed choice vector (for replays and spec -> code)."""

    def __init__(self, vec: list[int]) -> None:
        self.vec = list(vec)
        self.i = 0
        self.points = 0

    def choose(self, n: int) -> int:
        self.points += 1
        if self.i < len(self.vec):
            c = self.vec[self.i]
            self.i += 1
            return c if c < n else 0
        return 0
