"""X10 — scripted ECU for the primitive UDS commands, served by the REAL virtual-ECU server loop
(TCPUDSServerTransport.handle_client through harness.c10_stack.serving).

ECU model (plain JSON):
  {"sessions": [1, 2, 3],
   "dsc":   {"2": "ok" | "neg" | "nostick"}     per target session (default "ok"):
               ok       DiagnosticSessionControl through gallia's default response chain (session entered)
               neg      refused: 7F 10 22 (conditionsNotCorrect), session unchanged
               nostick  answered positively (50 xx) but the ECU stays where it is (it silently falls back)
   "sread": "ok" | "unsup" | "sil"              ReadDataByIdentifier F186 (active session):
               ok       gallia's default chain: 62 F1 86 <truth session>
               unsup    7F 22 31 (requestOutOfRange: identifier not supported)
               sil      never answered
   "answers": [cls, ..], "default": cls          script over the SUBJECT requests in the order they reach the ECU
               (a retry of the client is a new request): ["pos"] | ["pos", "<hex data>"] | ["neg", nrc] | ["sil"]
   "tp_subject": bool                            TesterPresent 3E 00 is a subject request (`ping`), else management
   "iocp": bool                                  the 4th byte of an InputOutputControlByIdentifier request is an
                                                 inputOutputControlParameter (echoed in the positive response)
  }
Subject requests are all requests that are not management: DiagnosticSessionControl (10 xx), the session read
(22 F1 86), TesterPresent (3E xx, unless tp_subject).  Management requests are always answered
(TesterPresent with the suppress bit: no answer, as ISO 14229-1 says).

Positive responses follow the ISO 14229-1 layouts of the request's service (see positive_for).

Every request is recorded: ground-truth session before / after, request, answer class, answer bytes, virtual time
(ms), phase of the command (setup | main | teardown; the runner sets `phase`), `ib`: the session changed between
the previous request and this one (the server loop's inactivity reset: the ECU fell back by itself).
"""

from __future__ import annotations

import asyncio
from typing import Any

from gallia.services.uds.core import service
from gallia.services.uds.core.constants import UDSIsoServices
from gallia.services.uds.server import UDSServer

from harness.c10_stack import _Raw, _is_dsc

DEFAULT_VIN = b"WVWZZZ1JZXW000001"
SESSION_READ = b"\x22\xf1\x86"


def _alfi(b: int) -> tuple[int, int]:
    """ISO 14229-1 addressAndLengthFormatIdentifier: (address length, size length)."""
    return b & 0x0F, b >> 4


def positive_for(pdu: bytes, data: bytes | None, iocp: bool) -> bytes:
    """ISO 14229-1 positive response layouts."""
    sid = pdu[0]
    if sid == 0x2E:
        return bytes([0x6E]) + pdu[1:3]
    if sid == 0x31:
        return bytes([0x71]) + pdu[1:4] + (data or b"")
    if sid == 0x2F:
        # without an echoed control parameter the control status record must not be empty (ISO 14229-1: at least one byte)
        return bytes([0x6F]) + pdu[1:3] + (pdu[3:4] if iocp else b"") + (data or (b"" if iocp else b"\x5a"))
    if sid == 0x23:
        # ISO 14229-1: the data record has exactly memorySize bytes (gallia checks that); `data` seeds the pattern
        al, sl = _alfi(pdu[1])
        size = int.from_bytes(pdu[2 + al:2 + al + sl], "big")
        seed = data[0] if data else 0xA0
        return bytes([0x63]) + bytes((seed + 7 * i) & 0xFF for i in range(min(size, 0x1000)))
    if sid == 0x3D:
        al, sl = _alfi(pdu[1])
        return bytes([0x7D]) + pdu[1:2 + al + sl]
    if sid == 0x19:
        return bytes([0x59, pdu[1], 0xFF]) + (data or b"")
    if sid == 0x14:
        return bytes([0x54])
    if sid == 0x85:
        return bytes([0xC5, pdu[1] & 0x7F])
    if sid == 0x11:
        return bytes([0x51, pdu[1] & 0x7F]) + (b"\x05" if (pdu[1] & 0x7F) == 4 else b"")
    if sid == 0x3E:
        return bytes([0x7E, pdu[1] & 0x7F])
    if sid == 0x22:
        # ISO 14229-1: the data record of a ReadDataByIdentifier response has at least one byte
        return bytes([0x62]) + pdu[1:3] + (data or DEFAULT_VIN)
    if sid == 0x2C:
        return bytes([0x6C]) + pdu[1:4]
    return bytes([sid + 0x40])


class PrimServer(UDSServer):
    def __init__(self, model: dict[str, Any], mutant: str | None = None) -> None:
        super().__init__()
        self.model = model
        self.sessions = sorted(int(s) for s in model.get("sessions", [1, 2, 3]))
        self.dsc = {int(k): str(v) for k, v in model.get("dsc", {}).items()}
        self.sread = str(model.get("sread", "ok"))
        self.script = [list(c) for c in model.get("answers", [])]
        self.default = list(model.get("default", ["pos"]))
        self.tp_subject = bool(model.get("tp_subject", False))
        self.iocp = bool(model.get("iocp", True))
        self.mutant = mutant
        self.n_subject = 0
        self.phase = "setup"
        self._after = 1
        self.log: list[dict[str, Any]] = []
        sup: dict[UDSIsoServices, list[int] | None] = {UDSIsoServices.DiagnosticSessionControl: self.sessions,
                                                       UDSIsoServices.ReadDataByIdentifier: None}
        self._sup = {s: dict(sup) for s in self.sessions}

    @property
    def supported_services(self) -> dict[int, dict[UDSIsoServices, list[int] | None]]:
        return self._sup

    async def respond_after_default(self, request: service.UDSRequest) -> service.UDSResponse | None:
        return None

    def is_subject(self, pdu: bytes) -> bool:
        if _is_dsc(pdu) or pdu == SESSION_READ:
            return False
        if pdu[0] == 0x3E:
            return self.tp_subject and pdu == b"\x3e\x00"
        return True

    def _rec(self, truth: int, pdu: bytes, cls: str, nrc: int, resp: Any, subject: bool) -> None:
        now = asyncio.get_event_loop().time()
        self.log.append({"k": "q", "t": truth, "t2": self.state.session, "p": list(pdu), "r": cls, "nrc": nrc,
                         "a": [] if resp is None else list(resp.pdu), "ms": int(round(now * 1000)), "ph": self.phase,
                         "ib": truth != self._after, "subj": subject})
        self._after = self.state.session

    async def respond(self, request: service.UDSRequest) -> Any:
        pdu = bytes(request.pdu)
        truth = self.state.session
        subject = self.is_subject(pdu)
        if subject:
            cls = self.script[self.n_subject] if self.n_subject < len(self.script) else self.default
            self.n_subject += 1
            if cls[0] == "pos":
                data = bytes.fromhex(cls[1]) if len(cls) > 1 and cls[1] is not None else None
                raw: bytes | None = positive_for(pdu, data, self.iocp)
                if pdu[0] == 0x11:
                    self.state.reset()  # a reset ECU is in its default session
            elif cls[0] == "neg":
                raw = bytes([0x7F, pdu[0], int(cls[1])])
                if self.mutant == "fake-answers-positive-when-scripted-negative":
                    raw = positive_for(pdu, None, self.iocp)
            else:
                raw = None
            resp = None if raw is None else _Raw(raw)
            self._rec(truth, pdu, cls[0], int(cls[1]) if cls[0] == "neg" else 0, resp, True)
            return resp
        if _is_dsc(pdu):
            mode = self.dsc.get(pdu[1] & 0x7F, "ok")
            if mode == "neg":
                resp = _Raw(b"\x7f\x10\x22")
            elif mode == "nostick":
                resp = _Raw(bytes([0x50, pdu[1] & 0x7F, 0x00, 0x32, 0x01, 0xF4]))
            else:
                resp = await super().respond(request)  # gallia's default chain + state update
        elif pdu == SESSION_READ:
            if self.sread == "unsup":
                resp = _Raw(b"\x7f\x22\x31")
            elif self.sread == "sil":
                resp = None
            else:
                resp = await super().respond(request)
        else:  # TesterPresent
            resp = None if (len(pdu) > 1 and pdu[1] & 0x80) else _Raw(b"\x7e\x00")
        a = None if resp is None else bytes(resp.pdu)
        cls_m = "sil" if a is None else ("neg" if a[0] == 0x7F else "pos")
        self._rec(truth, pdu, cls_m, a[2] if (a is not None and a[0] == 0x7F and len(a) > 2) else 0, resp, False)
        return resp
