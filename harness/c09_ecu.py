"""C09 helpers: an ECU whose diagnostic sessions form a given directed graph,
served by the REAL virtual-ECU stack, and one real SessionsScanner run against it.

Full stack in the loop (nothing of gallia is replaced):

  SessionsScanner.run()  (setup + main + teardown, config object built directly)
    -> ECU / UDSClient (real, incl. the cyclic tester-present task)
    -> TCPLinesTransport.connect("tcp-lines://...")      [asyncio.open_connection patched
    -> in-memory byte streams (harness.streams.Wire x 2)   to hand out the in-memory wire]
    -> TCPUDSServerTransport.handle_client (real)
    -> GraphServer(UDSServer): only `supported_services` (realisation A) or the
       session-change rule (realisation B) is ours; the default response chain,
       parse_dynamic, state update are gallia's.

Ground truth is recorded in GraphServer.respond(): every request with the ECU
session before/after.  The reported (session, stack) pairs are observed at the
database interface (`insert_session_transition`) through a recording stand-in.
"""

from __future__ import annotations

import asyncio
import json
from typing import Any

from gallia.services.uds.core import service
from gallia.services.uds.core.constants import UDSErrorCodes, UDSIsoServices
from gallia.services.uds.server import TCPUDSServerTransport, UDSServer
from gallia.transports import TargetURI

from harness import vloop
from harness.streams import Listener, Wire, patched_connections

DSC = UDSIsoServices.DiagnosticSessionControl

# NRCs of realisation B (refused transitions answered with something else than the default chain)
NRC_B = [
    UDSErrorCodes.conditionsNotCorrect,
    UDSErrorCodes.subFunctionNotSupportedInActiveSession,
    UDSErrorCodes.securityAccessDenied,
    UDSErrorCodes.subFunctionNotSupported,
]


class RequestCapReached(Exception):
    pass


class GraphServer(UDSServer):
    """Sessions = nodes, `edges` = set of (from, to): DiagnosticSessionControl(to) is
    answered positively in session `from` iff (from, to) in edges.

    realisation "A": the graph is expressed ONLY through `supported_services`
        (sub-function list of 0x10 per session); gallia's default chain produces the
        answers (subFunctionNotSupported / ...InActiveSession for refused changes).
    realisation "B": refused changes are answered by `nrc_of(from, to)` (conditionsNotCorrect,
        subFunctionNotSupportedInActiveSession, securityAccessDenied, ...).
    mutant "lazy": answers positively but does not change the session for edges
        into `lazy_target` (self-test of the binding only).
    """

    def __init__(self, sessions: list[int], edges: set[tuple[int, int]], realisation: str = "A",
                 nrc_salt: int = 0, cap: int = 10**9, mutant: str | None = None,
                 reset_mode: str = "absent", slow: float = 0.0, latency: float = 0.0,
                 reset_delay: float = 0.25, param_record: bytes | None = None) -> None:
        super().__init__()
        # sessionParameterRecord of positive DiagnosticSessionControl answers: None = what gallia's server sends;
        # otherwise these bytes (ISO 14229-1:2006 leaves the record to the vehicle manufacturer; later editions put
        # P2 / P2* there, ECUs in the field append their own bytes)
        self.param_record = param_record
        self.latency = latency  # seconds every answer takes (bus + processing time)
        self.reset_delay = reset_delay  # "pos-delayed": seconds between the positive answer and the reset itself
        # slow > 0: an accepted session change takes `slow` seconds; the ECU announces it with
        # requestCorrectlyReceived-ResponsePending (0x78) and answers within its P2* (5 s, as it reports in the
        # positive DiagnosticSessionControl reply), as ISO 14229 allows for every service
        self.slow = slow
        self.writer: Any = None
        # ECUReset (only asked for with the scanner's --reset option):
        #   "absent"  not answered, nothing happens          "pos"    positive answer, back to the default session
        #   "neg"     refused (conditionsNotCorrect)         "silent" performed (default session) but not answered
        #   "pos-delayed"  positive answer at once, the reset itself 250 ms later
        self.reset_mode = reset_mode
        self.n_resets = 0
        self.sessions = sorted(sessions)
        self.edges = set(edges)
        self.realisation = realisation
        self.nrc_salt = nrc_salt
        self.cap = cap
        self.mutant = mutant
        self.log: list[dict[str, Any]] = []
        self.n_other = 0
        self.n_req = 0
        self._services: dict[int, dict[UDSIsoServices, list[int] | None]] = {}
        for s in self.sessions:
            subs = sorted(t for (f, t) in self.edges if f == s)
            if realisation == "B":
                subs = list(range(1, 0x80))  # rule disabled below; keep the table total
            self._services[s] = {
                DSC: subs,
                UDSIsoServices.TesterPresent: [0],
                UDSIsoServices.ReadDataByIdentifier: None,
            }
        if realisation == "B":
            self.behavior.default_response_if_sub_function_not_supported = False

    @property
    def supported_services(self) -> dict[int, dict[UDSIsoServices, list[int] | None]]:
        return self._services

    def nrc_of(self, f: int, t: int) -> UDSErrorCodes:
        if t not in self.sessions:
            # a session that does not exist: mostly "not supported", sometimes another refusal
            k = (f * 131 + t * 31 + self.nrc_salt) % 11
            return NRC_B[3] if k < 9 else NRC_B[k % 3]
        return NRC_B[(f * 7 + t * 13 + self.nrc_salt) % len(NRC_B)]

    def default_response_if_session_change(self, request: service.UDSRequest) -> Any:
        if self.realisation == "B" and isinstance(request, service.DiagnosticSessionControlRequest):
            t = request.diagnostic_session_type
            if (self.state.session, t) not in self.edges:
                return service.NegativeResponse(request.service_id, self.nrc_of(self.state.session, t))
        return super().default_response_if_session_change(request)

    async def respond_after_default(self, request: service.UDSRequest) -> service.UDSResponse | None:
        return None

    async def update_state(self, request: service.UDSRequest, response: service.UDSResponse) -> None:
        if (self.mutant == "lazy" and isinstance(response, service.DiagnosticSessionControlResponse)
                and response.diagnostic_session_type == max(self.sessions)):
            return  # positive answer, session unchanged
        await super().update_state(request, response)

    async def respond(self, request: service.UDSRequest) -> service.UDSResponse | None:
        self.n_req += 1
        if self.n_req > self.cap:
            raise RequestCapReached()
        if self.latency > 0:
            await asyncio.sleep(self.latency)
        before = self.state.session
        if request.service_id == 0x11 and self.reset_mode != "absent":
            self.n_other += 1
            self.n_resets += 1
            if self.reset_mode == "neg":
                return service.NegativeResponse(0x11, UDSErrorCodes.conditionsNotCorrect)
            if self.reset_mode == "pos-delayed":
                # the ECU acknowledges first and reboots a moment later (reset_delay < 0.5 s), as real ECUs do; it keeps
                # answering until then
                def perform() -> None:
                    self.log.append({"s": 0, "f": self.state.session, "ok": 1, "a": 1, "nrc": 0})
                    self.state.reset()

                asyncio.get_running_loop().call_later(self.reset_delay, perform)
                return service.ECUResetResponse(request.pdu[1] & 0x7F)
            # a performed reset is logged as a pseudo entry (requested = 0) so that the ground truth stays a chain
            self.log.append({"s": 0, "f": before, "ok": 1, "a": 1, "nrc": 0})
            if self.reset_mode == "silent":
                self.state.reset()
                return None
            response = service.ECUResetResponse(request.pdu[1] & 0x7F)
            await self.update_state(request, response)
            return response
        if (self.slow > 0 and request.service_id == DSC and len(request.pdu) == 2 and self.writer is not None
                and (before, request.pdu[1] & 0x7F) in self.edges and not request.pdu[1] & 0x80):
            self.writer.write(b"7f1078\n")
            await asyncio.sleep(self.slow)
        response = await super().respond(request)
        if self.param_record is not None and isinstance(response, service.DiagnosticSessionControlResponse):
            response = service.DiagnosticSessionControlResponse(response.diagnostic_session_type, self.param_record)
        after = self.state.session
        if request.service_id == DSC and len(request.pdu) >= 2:
            self.log.append({
                "s": request.pdu[1] & 0x7F,
                "f": before,
                "ok": 0 if (response is None or isinstance(response, service.NegativeResponse)) else 1,
                "a": after,
                "nrc": int(response.response_code) if isinstance(response, service.NegativeResponse) else 0,
            })
        else:
            self.n_other += 1
        return response


class RecordingDB:
    """Stand-in for gallia.db.handler.DBHandler: every coroutine is a no-op, the
    `session_transition` rows are kept.  (A real aiosqlite handler needs a worker
    thread, which does not mix with the virtual-time loop.)"""

    def __init__(self) -> None:
        self.rows: list[dict[str, Any]] = []
        self.connection = None
        self.meta = None
        self.target = None
        self.scan_run = None
        self.calls: dict[str, int] = {}
        self.prior: dict[int, list[int]] = {}

    async def insert_session_transition(self, destination: int, steps: list[int]) -> None:
        self.rows.append({"s": int(destination), "st": [int(x) for x in steps]})

    async def get_session_transition(self, destination: int) -> list[int] | None:
        # rows of an EARLIER scan of the same target in the same database (case["prior_db"])
        return self.prior.get(int(destination))

    def __getattr__(self, name: str) -> Any:
        if name.startswith("__"):
            raise AttributeError(name)

        async def noop(*a: Any, **kw: Any) -> None:
            self.calls[name] = self.calls.get(name, 0) + 1

        return noop


def _link(server_tr: TCPUDSServerTransport, srv: Any = None) -> tuple[Listener, list[asyncio.Task[None]]]:
    """Listener whose accepted connections are served by the real handle_client."""
    tasks: list[asyncio.Task[None]] = []
    lis = Listener()

    def on_accept(cw: Wire) -> None:
        sw = Wire()  # server side: sw.reader is fed with what the client writes
        cw.on_out = sw.feed
        cw.on_client_close = sw.eof
        sw.on_out = cw.feed
        sw.on_client_close = cw.eof
        if srv is not None:
            srv.writer = sw.writer
        tasks.append(asyncio.get_running_loop().create_task(
            server_tr.handle_client(sw.reader, sw.writer), name="vecu"))  # type: ignore[arg-type]

    lis.on_accept = on_accept
    return lis, tasks


def request_cap(n_sessions: int, depth: int) -> int:
    """Harness-side stop for runaway scans (far above the contract's G4 bound for these sizes)."""
    walks = sum(n_sessions ** k for k in range(depth))
    return 20 * 128 * (depth + 2) * walks + 1000


def run_scan(case: dict[str, Any]) -> dict[str, Any]:
    """One real scan.  case: sessions, E [[f,t],..], depth, skip, thorough, real ("A"|"B"),
    salt, sleep, tp (tester present), hooks (with_hooks), mutant.  Returns the trace record."""
    from gallia.commands.scan.uds.sessions import SessionsScanner, SessionsScannerConfig

    sessions = list(case["sessions"])
    edges = {(int(f), int(t)) for f, t in case["E"]}
    cap = request_cap(len(sessions), case["depth"])
    srv = GraphServer(sessions, edges, case.get("real", "A"), case.get("salt", 0), cap, case.get("mutant"),
                      case.get("reset_mode", "absent"), float(case.get("slow", 0.0)),
                      float(case.get("latency", 0.0)), float(case.get("reset_delay", 0.25)),
                      bytes.fromhex(case["param_record"]) if case.get("param_record") is not None else None)
    st = TCPUDSServerTransport(srv, TargetURI("tcp-lines://127.0.0.1:20162"))
    kw: dict[str, Any] = {}
    if case.get("skip_text"):
        kw["skip"] = list(case["skip_text"])  # the way the command line hands it over: range expressions
    elif case["skip"]:
        kw["skip"] = [int(x) for x in case["skip"]]
    if case.get("reset") is not None:
        kw["reset"] = int(case["reset"])
        kw["timeout"] = 1.0
    cfg = SessionsScannerConfig(
        target="tcp-lines://127.0.0.1:20162", depth=int(case["depth"]), thorough=bool(case["thorough"]),
        dumpcap=False, sleep=int(case.get("sleep", 0)), tester_present=bool(case.get("tp", True)),
        with_hooks=bool(case.get("hooks", False)), hooks=False, **kw)
    scanner = SessionsScanner(cfg)
    db = RecordingDB()
    if case.get("prior_db"):
        # what a previous, deeper scan of this ECU would have stored: a real path to every reachable session
        paths: dict[int, list[int]] = {1: []}
        frontier = [1]
        while frontier:
            nxt = []
            for f in frontier:
                for (a, b) in sorted(edges):
                    if a == f and b not in paths:
                        paths[b] = paths[f] + [f]
                        nxt.append(b)
            frontier = nxt
        db.prior = {d: p for d, p in paths.items() if p}
    scanner.db_handler = db  # type: ignore[assignment]
    out: dict[str, Any] = {"end": "hang", "exc": ""}
    real_db = case.get("db_path")
    real_rows: list[dict[str, Any]] = []

    async def go() -> None:
        lis, tasks = _link(st, srv)
        st.last_time_active = asyncio.get_running_loop().time()
        h = None
        if real_db:
            # the REAL database handler on a file that may already hold earlier scans of the same target
            import sqlite3
            from datetime import UTC, datetime
            from pathlib import Path

            import gallia.command  # noqa: F401
            from gallia.command.config import GalliaBaseModel
            from gallia.db.handler import DBHandler

            h = DBHandler(Path(real_db))
            await h.connect()
            await h.insert_run_meta("c09-harness", GalliaBaseModel(), datetime.now(UTC).astimezone(), None)
            await h.insert_scan_run(str(cfg.target))
            scanner.db_handler = h
        with patched_connections(lis):
            try:
                await scanner.run()
                out["end"] = "done"
            except SystemExit as e:
                out["end"] = "exit"
                out["exc"] = f"SystemExit({e.code})"
            except Exception as e:  # noqa: BLE001
                out["end"] = "exc"
                out["exc"] = repr(e)[:200]
        for t in tasks:
            t.cancel()
        if h is not None:
            run_id = h.scan_run
            try:
                await h.disconnect()
            finally:
                if h.connection is not None:
                    await h.connection.close()
            con = sqlite3.connect(real_db)
            try:
                for dest, steps in con.execute("SELECT destination, steps FROM session_transition WHERE run = ?",
                                               (run_id,)):
                    real_rows.append({"s": int(dest), "st": [int(x) for x in json.loads(steps)]})
            finally:
                con.close()

    # the server loop's inactivity reset (10 s without a request) reads time.time(): give it the
    # virtual clock too, so that a descheduled worker process cannot change the ECU's behaviour
    import gallia.services.uds.server as server_mod

    real_time = server_mod.time
    server_mod.time = lambda: asyncio.get_event_loop().time()  # type: ignore[assignment]
    try:
        if real_db:
            asyncio.run(asyncio.wait_for(go(), 120))  # aiosqlite works through a thread: normal event loop
        else:
            vloop.run(go(), horizon=3600.0 * 24 * 30)
    except (TimeoutError, vloop.BlockedForever):
        out["end"] = "hang"
    except SystemExit as e:  # raised inside a task
        out["end"] = "exit"
        out["exc"] = f"SystemExit({e.code})"
    finally:
        server_mod.time = real_time  # type: ignore[assignment]
    if srv.n_req > cap:
        out["end"] = "hang"
        out["exc"] = f"request cap {cap} reached"
    return {
        "sessions": sorted(sessions),
        "E": sorted([f, t] for f, t in edges),
        "depth": int(case["depth"]),
        "skip": sorted(int(x) for x in case["skip"]),
        "thorough": 1 if case["thorough"] else 0,
        "reqs": [[r["s"], r["f"], r["ok"], r["a"]] for r in srv.log],
        "nrcs": sorted({r["nrc"] for r in srv.log if r["nrc"]}),
        "nother": srv.n_other,
        "result": [int(x) for x in scanner.result],
        "rows": real_rows if real_db else db.rows,
        "end": out["end"],
        "exc": out["exc"],
        "case": {k: case[k] for k in case},
    }
