#!/bin/sh
# Offline setup: verify the tools, import gallia from /repo, parse every TLA+ module (SANY, in parallel).
set -e
HERE="$(cd "$(dirname "$0")" && pwd)"
cd "$HERE"
command -v java >/dev/null
test -f /opt/veriftools/tla/tla2tools.jar
PYTHONPATH="$HERE:/repo/src" /venv/bin/python -c "import gallia, hypothesis, harness.tlc"
mkdir -p evidence replays
OUT=$(mktemp -d)
trap 'rm -rf "$OUT"' EXIT
ls spec/*.tla | xargs -n 1 -P 8 sh -c '
  m=$(basename "$1" .tla)
  d=$(mktemp -d)
  if ! (cd spec && java -Djava.io.tmpdir="$d" -cp /opt/veriftools/tla/tla2tools.jar:/opt/veriftools/tla/CommunityModules-deps.jar tla2sany.SANY "$m.tla" >"$0/$m.log" 2>&1) \
     || grep -q -E "Parse Error|Semantic errors|Fatal errors|Could not" "$0/$m.log"; then
    touch "$0/$m.failed"
  fi
  rm -rf "$d"
' "$OUT"
# A module that does not parse makes the check that uses it exit 2 (machinery failure) by itself; here it is
# only reported, so that a growth module under construction cannot break the setup of the registered checks.
for f in "$OUT"/*.failed; do
  [ -e "$f" ] || continue
  m=$(basename "$f" .failed)
  echo "WARNING: SANY rejects spec/$m.tla"; tail -5 "$OUT/$m.log"
done
exit 0
