#!/bin/sh
# Offline setup: verify the tools, import gallia from /repo, parse every TLA+ module.
set -e
HERE="$(cd "$(dirname "$0")" && pwd)"
cd "$HERE"
command -v java >/dev/null
test -f /opt/veriftools/tla/tla2tools.jar
PYTHONPATH="$HERE:/repo/src" /venv/bin/python -c "import gallia, hypothesis, harness.tlc"
mkdir -p evidence replays
fail=0
for f in spec/*.tla; do
  m=$(basename "$f" .tla)
  if ! (cd spec && java -cp /opt/veriftools/tla/tla2tools.jar:/opt/veriftools/tla/CommunityModules-deps.jar tla2sany.SANY "$m.tla" >/tmp/sany.$$ 2>&1) || grep -q -E "Parse Error|Semantic errors|Fatal errors|Could not" /tmp/sany.$$; then
    echo "SANY rejects $m"; tail -20 /tmp/sany.$$; fail=1
  fi
done
rm -f /tmp/sany.$$
exit $fail
